--------------------------- MODULE WalPolicyTrace ---------------------------
(* Trace validation for WalPolicy.tla: one life of the REAL WAL actor under  *)
(* any fsync policy on the scripted store, with SyncTick / TruncateUpTo /    *)
(* Shutdown messages among the writes.  Mechanism-permissive like WalTrace:  *)
(* what is judged is                                                         *)
(*   - ack: always => inside a synced prefix (or already truncated away);    *)
(*          everysec/no => written intact to its file (or truncated away)    *)
(*   - delete: never the active file; no recoverable entry of the file is    *)
(*          stamped later than every threshold requested so far (C10)        *)
(*   - tick (the actor has handled a SyncTick): everysec and no fsync has    *)
(*          failed => every acknowledged, untruncated write is durable       *)
(*   - down (graceful shutdown returned): same, for always and everysec      *)
(*   - crashcheck: real recovery of the crash image = Recover; always: no    *)
(*          acknowledged, untruncated write is missing                       *)
EXTENDS WalPolicy, Json, IOUtils

Rec == ndJsonDeserialize(IOEnv.TRACE)
VARIABLES l, run, pol, ts, acur
tvars == <<pvars, l, run, pol, ts, acur>>

Verdict(ev, what) == PrintT(<<"VERDICT", ToJson([run |-> run, l |-> l, v |-> "bad", what |-> what])>>)

RECURSIVE RecoverSeqFrom(_, _)
RecoverSeqFrom(F, ids) ==
  IF ids = {} THEN <<>>
  ELSE LET m == CHOOSE i \in ids : \A j \in ids : i <= j
       IN FileRecover(F[m]) \o RecoverSeqFrom(F, ids \ {m})
RecoverSeq(F) == RecoverSeqFrom(F, DOMAIN F)

Cell(ev) == IF ev.kind = "hdr" THEN (IF ev.res = "ok" THEN Hdr ELSE TornHdr)
            ELSE IF ev.kind = "ent" THEN Ent(ev.w, ev.res # "ok")
            ELSE Ent(0, ev.res # "ok")

Keep == UNCHANGED <<queue, cur, roll, seq, pend, since, faults, down>>
Live == {w \in Writers : ack[w] = "ok"} \ gone
AllDurable == \A w \in Live : Durable(w)
Stamp(w) == IF w \in DOMAIN ts THEN ts[w] ELSE 0
FileMax(f) == LET ws == FileRecover(f) IN
              IF ws = <<>> THEN 0 ELSE LET S == {Stamp(ws[i]) : i \in DOMAIN ws} IN CHOOSE m \in S : \A x \in S : x <= m

TraceInit == PInit /\ l = 1 /\ run = 0 /\ pol = "always" /\ ts = <<>> /\ acur = 0

Step(ev) ==
  \/ /\ ev.a = "reset"
     /\ files' = <<>> /\ ack' = [w \in Writers |-> "none"] /\ run' = ev.run /\ pol' = ev.policy /\ ts' = ev.ts
     /\ tmax' = 0 /\ gone' = {} /\ sfail' = FALSE /\ acur' = 0 /\ Keep
  \/ /\ ev.a = "send"
     /\ ack' = [ack EXCEPT ![ev.w] = "sent"] /\ UNCHANGED <<files, run, pol, ts, tmax, gone, sfail, acur>> /\ Keep
     /\ (ack[ev.w] # "none" => Verdict(ev, "write sent twice"))
  \/ /\ ev.a = "create"
     /\ (IF ev.ok THEN IoCreate(ev.f) ELSE UNCHANGED files) /\ acur' = 0
     /\ UNCHANGED <<ack, run, pol, ts, tmax, gone, sfail>> /\ Keep
  \/ /\ ev.a = "append"
     /\ (IF ev.res = "fail" \/ ev.f \notin DOMAIN files THEN UNCHANGED files ELSE IoAppend(ev.f, Cell(ev)))
     /\ acur' = (IF ev.kind = "hdr" THEN (IF ev.res = "ok" THEN ev.f ELSE 0) ELSE acur)
     /\ UNCHANGED <<ack, run, pol, ts, tmax, gone, sfail>> /\ Keep
  \/ /\ ev.a = "sync"
     /\ (IF ev.ok /\ ev.f \in DOMAIN files THEN IoSync(ev.f) ELSE UNCHANGED files) /\ sfail' = (sfail \/ ~ev.ok)
     /\ UNCHANGED <<ack, run, pol, ts, tmax, gone, acur>> /\ Keep
  \/ /\ ev.a = "ack"
     /\ IoAck(ev.w, ev.ok) /\ UNCHANGED <<files, run, pol, ts, tmax, gone, sfail, acur>> /\ Keep
     /\ IF ack[ev.w] # "sent" THEN Verdict(ev, "ack without pending write")
        ELSE IF ev.ok /\ ev.w \notin gone /\ pol = "always" /\ ~Durable(ev.w) THEN Verdict(ev, "always: acked durable but not in a synced prefix")
        ELSE IF ev.ok /\ ev.w \notin gone /\ ev.w \notin RecoverSet(files) THEN Verdict(ev, "acknowledged but not written intact to any file")
        ELSE TRUE
  \/ /\ ev.a = "truncreq"
     /\ tmax' = Max2(tmax, ev.t) /\ UNCHANGED <<files, ack, run, pol, ts, gone, sfail, acur>> /\ Keep
  \/ /\ ev.a = "delete"
     /\ files' = [j \in DOMAIN files \ {ev.f} |-> files[j]]
     (* only what some requested threshold covers is excused: an entry stamped later than every requested threshold stays an *)
     (* obligation of the always policy wherever the implementation has put it meanwhile                                     *)
     /\ gone' = gone \cup (IF ev.f \in DOMAIN files THEN {w \in RangeS(FileRecover(files[ev.f])) : Stamp(w) <= tmax} ELSE {})
     /\ UNCHANGED <<ack, run, pol, ts, tmax, sfail, acur>> /\ Keep
     /\ IF ev.f = acur THEN Verdict(ev, "truncation removed the active file")
        ELSE IF ev.f \in DOMAIN files /\ FileMax(files[ev.f]) > tmax THEN Verdict(ev, "truncation removed an entry stamped later than every requested threshold")
        ELSE TRUE
  \/ /\ ev.a = "tick"
     /\ UNCHANGED <<files, ack, run, pol, ts, tmax, gone, sfail, acur>> /\ Keep
     /\ IF pol = "everysec" /\ ~sfail /\ ~AllDurable THEN Verdict(ev, "everysec: an acknowledged write is not durable after a handled SyncTick")
        ELSE TRUE
  \/ /\ ev.a = "down"
     /\ UNCHANGED <<files, ack, run, pol, ts, tmax, gone, sfail, acur>> /\ Keep
     /\ IF pol # "no" /\ ~sfail /\ ~AllDurable THEN Verdict(ev, "an acknowledged write is not durable after graceful shutdown")
        ELSE TRUE
  \/ /\ ev.a = "crashcheck"
     /\ UNCHANGED <<files, ack, run, pol, ts, tmax, gone, sfail, acur>> /\ Keep
     /\ IF "panic" \in DOMAIN ev THEN Verdict(ev, "recovery panicked")
        ELSE IF ev.rec # RecoverSeq(CrashImage(files)) THEN Verdict(ev, "recovery of the crash image differs from Recover")
        ELSE IF pol = "always" /\ \E w \in Live : w \notin RangeS(ev.rec) THEN Verdict(ev, "always: acked write missing after crash")
        ELSE TRUE
  \/ /\ ev.a = "panic"
     /\ UNCHANGED <<files, ack, run, pol, ts, tmax, gone, sfail, acur>> /\ Keep /\ Verdict(ev, "actor panicked")

TraceNext ==
  \/ l <= Len(Rec) /\ Step(Rec[l]) /\ l' = l + 1
  \/ l = Len(Rec) + 1 /\ PrintT(<<"VALIDATED", Len(Rec)>>) /\ l' = l + 1 /\ UNCHANGED <<pvars, run, pol, ts, acur>>

TraceSpec == TraceInit /\ [][TraceNext]_tvars
=============================================================================
