------------------------------ MODULE CrdtLaws ------------------------------
(***************************************************************************)
(* Unbounded companion of Crdt.tla / CrdtOps.tla for the max-lattice       *)
(* fragments of C07, proved with TLAPS (thorough tier of C07, an extra: no *)
(* verdict depends on it).  What is proved is the DESIGN - that the merge  *)
(* rules written in CrdtOps.tla are joins - for stamps, counters and       *)
(* registers of any size; that the code follows the design is what the     *)
(* bounded replay / trace validation of C07 decides.                       *)
(*   stamps      pairs (time, replica) under the lexicographic order; the  *)
(*               stamp of a merge is the greater one (LamportClock::merge) *)
(*   GCounter    replica -> count, merge = pointwise maximum               *)
(*   LWW         a register is a (stamp, payload) pair; merge keeps the    *)
(*               greater stamp; stamps identify writes (equal stamps carry *)
(*               equal payloads - the assumption StampsIdentify)           *)
(***************************************************************************)
EXTENDS Naturals, TLAPS

Stamp == Nat \X Nat
SLeq(a, b) == a[1] < b[1] \/ (a[1] = b[1] /\ a[2] <= b[2])
SMax(a, b) == IF SLeq(a, b) THEN b ELSE a

LEMMA SLeqTotal == \A a, b \in Stamp : SLeq(a, b) \/ SLeq(b, a)
  BY DEF Stamp, SLeq
LEMMA SLeqAntisym == \A a, b \in Stamp : SLeq(a, b) /\ SLeq(b, a) => a = b
  BY DEF Stamp, SLeq
LEMMA SLeqTrans == \A a, b, c \in Stamp : SLeq(a, b) /\ SLeq(b, c) => SLeq(a, c)
  BY DEF Stamp, SLeq

THEOREM SMaxIdem == \A a \in Stamp : SMax(a, a) = a
  BY DEF SMax
THEOREM SMaxComm == \A a, b \in Stamp : SMax(a, b) = SMax(b, a)
  BY SLeqTotal, SLeqAntisym DEF SMax
THEOREM SMaxAssoc == \A a, b, c \in Stamp : SMax(SMax(a, b), c) = SMax(a, SMax(b, c))
  BY SLeqTotal, SLeqAntisym, SLeqTrans DEF SMax
THEOREM SMaxUpper == \A a, b \in Stamp : SLeq(a, SMax(a, b)) /\ SLeq(b, SMax(a, b))
  BY SLeqTotal DEF SMax, SLeq, Stamp

---------------------------------------------------------------------------
(* grow-only counters over any set of replicas *)
CONSTANT Replica
Counter == [Replica -> Nat]
Max(x, y) == IF x <= y THEN y ELSE x
CMerge(f, g) == [r \in Replica |-> Max(f[r], g[r])]

THEOREM CMergeType == \A f, g \in Counter : CMerge(f, g) \in Counter
  BY DEF Counter, CMerge, Max
THEOREM CMergeIdem == \A f \in Counter : CMerge(f, f) = f
  BY DEF Counter, CMerge, Max
THEOREM CMergeComm == \A f, g \in Counter : CMerge(f, g) = CMerge(g, f)
  BY DEF Counter, CMerge, Max
THEOREM CMergeAssoc == \A f, g, h \in Counter : CMerge(CMerge(f, g), h) = CMerge(f, CMerge(g, h))
  BY DEF Counter, CMerge, Max

---------------------------------------------------------------------------
(* last-writer-wins registers: the writes of a run, each with its stamp; stamps identify writes *)
CONSTANT Payload, Writes
ASSUME WritesType == Writes \subseteq (Stamp \X Payload)
ASSUME StampsIdentify == \A w1, w2 \in Writes : w1[1] = w2[1] => w1 = w2
LMerge(x, y) == IF SLeq(x[1], y[1]) THEN y ELSE x

THEOREM LMergeClosed == \A x, y \in Writes : LMerge(x, y) \in Writes
  BY DEF LMerge
THEOREM LMergeIdem == \A x \in Writes : LMerge(x, x) = x
  BY DEF LMerge
THEOREM LMergeComm == \A x, y \in Writes : LMerge(x, y) = LMerge(y, x)
  <1> SUFFICES ASSUME NEW x \in Writes, NEW y \in Writes PROVE LMerge(x, y) = LMerge(y, x)
      OBVIOUS
  <1>1. x[1] \in Stamp /\ y[1] \in Stamp
      BY WritesType
  <1>2. CASE SLeq(x[1], y[1]) /\ SLeq(y[1], x[1])
      <2>1. x[1] = y[1] BY <1>1, <1>2, SLeqAntisym
      <2>2. x = y BY <2>1, StampsIdentify
      <2> QED BY <2>2 DEF LMerge
  <1>3. CASE ~(SLeq(x[1], y[1]) /\ SLeq(y[1], x[1]))
      BY <1>1, <1>3, SLeqTotal DEF LMerge
  <1> QED BY <1>2, <1>3
THEOREM LMergeAssoc == \A x, y, z \in Writes : LMerge(LMerge(x, y), z) = LMerge(x, LMerge(y, z))
  <1> SUFFICES ASSUME NEW x \in Writes, NEW y \in Writes, NEW z \in Writes
               PROVE LMerge(LMerge(x, y), z) = LMerge(x, LMerge(y, z))
      OBVIOUS
  <1>1. x[1] \in Stamp /\ y[1] \in Stamp /\ z[1] \in Stamp
      BY WritesType
  <1> QED BY <1>1, SLeqTotal, SLeqTrans DEF LMerge
=============================================================================
