SPECIFICATION HSpec
CONSTANTS
  Deltas <- DeltasT
  MaxFaults = 1
  MaxSelect = 2
  GcBefore = 3
  Concurrent = FALSE
  WithCheckpoint = FALSE
  OrderedPush = TRUE
  AsBuilt = {}
VIEW View
INVARIANT Export
CHECK_DEADLOCK FALSE
