SPECIFICATION Spec
CONSTANTS
  Node = {1, 2, 3}
  Val = {"1"}
  Field = {"f", "g"}
  MaxCmds = 3
  MaxDup = 1
  MaxAE = 1
  CmdKinds = {"set", "hset"}
  AsBuilt = {}
INVARIANTS Converged
CHECK_DEADLOCK FALSE
