---------------------------- MODULE MCStreaming ----------------------------
EXTENDS Streaming
D(i, k, f, t, tomb) == [id |-> i, k |-> k, facts |-> f, t |-> t, tomb |-> tomb]
(* two keys; key a gets two hash-like deltas from different replicas, then a delete; b one write *)
DeltasA == {D(1, "a", {"f1"}, 1, FALSE), D(2, "a", {"f2"}, 2, FALSE), D(3, "b", {"g"}, 1, FALSE)}
DeltasT == {D(1, "a", {"f1"}, 1, FALSE), D(2, "a", {}, 2, TRUE), D(3, "b", {"g"}, 3, FALSE), D(4, "a", {"f2"}, 4, FALSE)}
=============================================================================
