#!/usr/bin/env python3
"""Regenerates /verif/MANIFEST.json from the table below (single source of truth)."""
import json, os
V = os.path.dirname(os.path.dirname(os.path.abspath(__file__)))
TITLES = {}
for l in open(os.path.join(V, "properties.jsonl")):
    p = json.loads(l); TITLES[p["id"]] = p["title"]

CHECKS = {
 "C07": dict(
  technique="TLA+ spec (Crdt.tla) model-checked with TLC; TLC-exported operation sequences replayed on the real ShardReplicaState/ReplicatedValue; recorded traces validated by TLC (CrdtTrace.tla)",
  text="TLC checks the three laws, in the observable projection, on every configuration of 3 replicas of one key reachable within the step bound; one operation sequence per distinct configuration is replayed on the real code and TLC validates every step (refinement of Merge) and the laws on the results of the real merge for all pairs and triples; random longer runs over all six CRDT kinds are validated the same way",
  note="bounded: 3 replicas, 1 key, <=3 (quick) / <=4 (thorough) operations for the exhaustive part; Obs() is the stated observable projection; type-mismatch triples are judged by the laws only"),
 "C09": dict(
  technique="TLA+ spec (Wal.tla) of rotator + group-commit actor model-checked with TLC (crash = invariant in every state, all fault outcomes); TLC-enumerated scenario space replayed on the real spawn_wal_actor over a scripted WalStore; I/O-level traces validated by TLC (WalTrace.tla)",
  text="design level: every interleaving of <=4-5 writers, rotation points, batch limits and <=2-3 faults satisfies AckedIsDurable in every state, and both as-built switches reproduce their counterexamples; implementation level: every scenario of the exported space (burst splits x capacity x batch x fault placement) is run on the real actor, the real recovery is run on the crash image after every I/O call, and TLC accepts an ack only where the entry lies in a synced prefix",
  note="fault model: crash keeps exactly the fsynced prefix of each file; torn append = prefix + error; scripted store implements the public WalStore trait; paused tokio time; truncation excluded"),
 "C10": dict(
  technique="TLA+ spec (WalFormat.tla): region-level reader model-checked with TLC over every damage placement; damaged real images read by the real recovery and judged case by case by TLC (WalFormatTrace.tla)",
  text="every cut length and every byte position (bit flips, bursts, zero windows, zero extensions) of small real images, and every stamp layout/threshold for truncation, with the expected outcome computed by TLC from the layout arithmetic of the specification",
  note="ideal-checksum assumption (single-bit and <=32-bit bursts); layouts of 1-3 files x 1-4 entries; entry identity = data+stamp+checksum"),
}

def main():
    checks = []
    for pid in sorted(CHECKS):
        c = CHECKS[pid]
        checks.append({
            "property_id": pid,
            "quick_cmd": f"bin/check {pid} --tier quick",
            "thorough_cmd": f"bin/check {pid} --tier thorough",
            "evidence_file": f"/verif/evidence/{pid}.json",
            "engine": "tlc+vh",
            "technique": c["technique"],
            "level_claimed": {"category": c.get("category", "model_checking"), "text": c["text"],
                              "design_ref": f"DESIGN.md section 5 {pid}"},
            "level_note": c["note"],
        })
    hooks = json.load(open(os.path.join(V, "hooks.json")))
    m = {
        "version": 1,
        "setup_cmd": "cd /verif/harness && RUSTC_WRAPPER= CARGO_NET_OFFLINE=true cargo build --profile verif --offline",
        "hooks": hooks,
        "engines": [
            {"name": "tlc", "path": "/verif/spec", "kind_free_text": "TLA+ specifications model-checked with TLC; trace specifications validate ndjson traces recorded from the real code", "serves_properties": sorted(CHECKS)},
            {"name": "vh", "path": "/verif/harness", "kind_free_text": "Rust harness (path dependency on /repo, feature verif-hooks): replays TLC-generated scenarios on the real types and records traces", "serves_properties": sorted(CHECKS)},
        ],
        "checks": checks,
        "not_applicable": [{"property_id": p, "reason": NA.get(p, "check not built yet (work in progress, see DESIGN.md growth plan)")}
                           for p in sorted(TITLES) if p not in CHECKS],
        "notes": "See DESIGN.md. bin/check exits 0 (held, possibly with KNOWN-FINDING lines), 1 (VIOLATION lines), 2 (tool error: no verdict).",
    }
    json.dump(m, open(os.path.join(V, "MANIFEST.json"), "w"), indent=1)

NA = {}
if __name__ == "__main__":
    main()
