#!/usr/bin/env python3
"""Regenerates /verif/MANIFEST.json from the table below (single source of truth)."""
import json, os
V = os.path.dirname(os.path.dirname(os.path.abspath(__file__)))
TITLES = {}
for l in open(os.path.join(V, "properties.jsonl")):
    p = json.loads(l); TITLES[p["id"]] = p["title"]

CHECKS = {
 "C11": dict(
  technique="TLA+ spec (Recovery.tla) model-checked with TLC over every placement of updates into checkpoint/segments/WAL; TLC-exported layouts materialised with the real writers, recovered with the real RecoveryManager (+WAL) and a real node; results judged by TLC (RecoveryTrace.tla) against CrdtOps!Merge",
  text="design level: for every placement (with duplication) the recovery procedure equals the merge of all placed updates and is idempotent, and the as-built WAL filter reproduces its counterexample; implementation level: every exported layout and thousands of random ones are built with the real SegmentWriter/CheckpointWriter/ManifestManager/WalRotator, and recover(), recover_with_wal() and apply_recovered_state (1x, 3x) must equal the merge computed by TLC; checkpoints written by the real CheckpointManager while flushes land between snapshot and write (published with compact_segments); a recovered state of 3k-40k updates of one key applied to a real node",
  note="update tables of 3-5 updates for the exhaustive part; kinds fixed per key; checkpoint coverage of skipped segments assumed consistent"),
 "C12": dict(
  technique="TLA+ spec (Streaming.tla) at object-store-call granularity model-checked with TLC (store image = crash image, all fault outcomes); TLC-exported workloads replayed on the real StreamingPersistence/Compactor over a scripted ObjectStore with a real recovery after every mutating call; traces validated by TLC (StreamTrace.tla); the second write buffer (write_buffer.rs) with overlapping flushes judged by WbufTrace.tla (Streaming.tla's buffer rule); the persistence pipeline of integration.rs judged by StreamTrace's call-level rules",
  text="design level: ManifestSound, ConfirmedRecoverable, RecoveryStable, NothingSilentlyDropped hold in every state of the ideal protocol with a fault anywhere, and the as-built switches reproduce their counterexamples; implementation level: every idle state of the sequential model becomes a workload run on the real code, the real RecoveryManager::recover runs on a copy of the image after EVERY mutating store call, and TLC requires that recovery succeeds, the manifest is sound, the recovered state absorbs every confirmed delta and invents nothing, and a failed flush keeps its buffer",
  note="fault model: put stores all / nothing / a prefix; rename atomic, possibly applied-but-reported-failed; scripted store implements the public ObjectStore trait; <=1 fault per exported workload, random workloads with faults in several operations; a fault may stay armed for 2-5 consecutive calls of a class (a read that keeps failing)"),
 "C13": dict(
  technique="TLA+ spec (Streaming.tla) with flush and compaction interleaved at store-call granularity and tombstone GC, model-checked with TLC; TLC-enumerated interleavings (495 schedules) gate the real Compactor and the real flush on a scripted ObjectStore; traces validated by TLC (StreamTrace.tla)",
  text="design level: RecoveryStable and ManifestSound for the ideal protocol under every interleaving, and counterexamples for blind manifest overwrite, latest-wins compaction and GC ignoring uncompacted segments; implementation level: sequential compaction workloads with faults, tombstone-GC layouts with a segment above the size target, and all interleavings of the 4 flush calls with the 8 compaction calls are executed on the real code with a real recovery after every mutating call",
  note="tombstone age in the code's own reading (Lamport time vs now - ttl under the harness clock); the two open findings are reported as KNOWN-FINDING"),
 "C01": dict(
  technique="TLA+ spec (RedisKeyspace.tla: ~60 commands, expiry, i64 arithmetic on decimal digit sequences) model-checked with TLC; TLC-exported command/tick sequences rendered to RESP, parsed by the real parser and run on the real CommandExecutor; wide random traces validated step by step by TLC (KsTrace.tla)",
  text="the specification is the oracle for every reply and for the full visible keyspace (key, type, value, deadline) after every step; TLC-exported sequences cover every keyspace reachable in the MC command universe, random sequences cover i64/index limits, binary and empty strings, option permutations and clock jumps to exactly a deadline and one millisecond before",
  note="Redis 7 semantics as written in the spec ([doc]/[src] tags); loose rules (two version-dependent ones; float syntaxes other than exact quarters for INCRBYFLOAT / SORT); two open findings (GETSET, SORT) reported as KNOWN-FINDING; errors compared by class; UTF-8 keys/fields/members; quarter-integer scores"),
 "C17": dict(
  technique="TLA+ spec (RedisKeyspace.tla) model-checked with TLC for ErrorChangesNothing / ReadOnlyChangesNothing; failure-biased traces of the real executor validated by TLC (KsTrace.tla) with model-independent rules on the recorded keyspaces",
  text="for every recorded step whose reply is an error or whose command the code's is_read_only() table classifies as read-only, the recorded visible keyspace before and after (keys, types, values, deadlines at that instant) must be equal, and the code's read-only table must be contained in the model's; 35% of commands come from a pool of out-of-model failures (bad arity/options, stubs, bit/float/scan commands, failing scripts)",
  note="scripts failing after a successful redis.call excluded; MULTI/EXEC excluded (C05)"),
 "C03": dict(
  technique="TLA+ specs (Sharding.tla router model, RedisKeyspace.tla as the one-keyspace semantics) model-checked with TLC; TLC-exported and random command sequences run on real ShardedActorStates with N in {1,2,4,(3,16)} over all entry points; traces validated by TLC (KsTrace.tla) against the ONE-keyspace specification",
  text="design level: OneHome / ReadsAgree / Refines for the router and counterexamples for the two as-built deviations; implementation level: an N-shard server is checked as an implementation of RedisKeyspace: every reply and the keyspace observed through commands (KEYS/TYPE/PTTL/dumps) after every step, with GET/SET spread over generic, fast, pooled and batched entry points, plus two-key command and full-SCAN families",
  note="UTF-8 keys; shared harness clock; three open findings reported as KNOWN-FINDING"),
 "C04": dict(
  technique="TLA+ spec (Connection.tla read loop / collectors / sequential loop) model-checked with TLC; TLC-exported wires and read deliveries replayed on the REAL OptimizedConnectionHandler (verif hook, one segment per read); decoded output judged by TLC (ConnTrace.tla) against sequential RedisKeyspace!Do",
  text="design level: OneReplyEachInOrder for all wires of <= 4 frames and all deliveries, with the latent as-built collector counterexample; implementation level: all 7212 exported (wire, delivery) scenarios and thousands of random pipelines (1-9 commands, thresholds 1/2/3/6, min buffer 0-200 bytes, cuts down to single bytes, 1 and 4 shards) run through the real handler; TLC requires one reply per command, in order, equal to the sequential run, an error for a malformed frame, and the sequential keyspace at the end",
  note="wall clock: no TTL-dependent commands; bytes after a malformed frame in the same read are not judged, commands in later reads are owed replies unless the handler closed the connection; short writes by the transport are part of the input space; the ACL extension (Acl.tla, AclTrace, harness_acl) runs with this check and only prints EXTENSION-OBSERVATION lines"),
 "C05": dict(
  technique="TLA+ transaction rules (ConnTrace.tla StepA/TxnFold on RedisKeyspace!Do); scripts with a second client writing in every gap run through TWO real connection handlers; every reply and the final keyspace judged by TLC",
  text="2500 (thorough 30000) scripts: watched key of four types, bodies with runtime failures, unknown commands, wrong arity, nested MULTI, WATCH inside MULTI, EXEC and DISCARD, client B writing same value / other value / delete / type-specific change / change-then-revert in every gap; TLC checks QUEUED/EXECABORT/nil rules, EXEC = sequential fold, and that aborted or discarded transactions leave the keyspace untouched",
  note="writes between A's commands only; value-based WATCH; one open finding reported as KNOWN-FINDING"),
 "C06": dict(
  technique="TLA+ spec (Replication.tla: executor + CRDT state + clock per node, reordering/duplicating/delaying network, anti-entropy) model-checked with TLC; TLC-exported step sequences replayed on real ReplicatedShardActors with the harness as network; traces validated by TLC (ReplTrace.tla); node-level multi-key commands on real ReplicatedShardedStates judged by ReplTrace!MultiKeyVerdict",
  text="design level: ServedIsState at every step and Converged at quiescence on 3 nodes for register and hash command sets; each repaired defect and the open type-change finding are reproduced by an as-built switch; implementation level: every exported configuration and thousands of random runs (2-4 nodes, all listed commands, duplicates, delays, anti-entropy) are replayed on the real actors and TLC compares replication state and served value of EVERY node after EVERY step, and agreement whenever nothing is in flight; the served TTL is part of the served value (ServedIsState covers it); the simulator's replicas (SimulatedNode under the same step rules; the whole MultiNodeSimulation with its own network, gossip and anti-entropy under SimClusterVerdict); a timed half of the node-level cluster family (shared clock, PX, eviction ticks, late deliveries)",
  note="one key per actor-level run (several keys in the node-level multi-key family), full replication; TTL replies not compared (expiry compared in the replication state); INCR/APPEND local outcome taken from the log"),
 "C08": dict(
  technique="TLA+ spec (NodeClock.tla) model-checked with TLC over writes/remote deltas/checkpoints/crash/recovery; exported lives replayed on a real ReplicatedShardedState; traces validated by TLC (NodeClockTrace.tla)",
  text="design level: StampAboveSeen, NeverRepeats, NewestWins, ClockDominates over all interleavings of local writes, remote stamps, checkpoints and up to 2 crashes, with the as-built counterexample; implementation level: every exported life and thousands of random ones run on a real node (16 shard actors, snapshot_state/apply_recovered_state as restart) and TLC checks every issued stamp against everything the running node has observed for the key; every fourth life with a real always-fsync WAL actor attached to the node (the node decides what is durable; recovery replays the real WAL); writes with short and long TTLs among the local writes",
  note="durability of acknowledged writes assumed (C09/C12); stamps compared per key because the code has one clock per shard"),
 "C02": dict(
  technique="TLA+ spec (ShardActors.tla: clients, FIFO mailboxes, shard actors, one-shot and pooled reply slots with acquire/send/receive/reset/cancel) model-checked with TLC incl. liveness; TLC-simulated behaviours projected to inv/run/recv/cancel schedules and replayed by polling real futures on a real ShardedActorState; free-running multi-thread histories recorded with tickets; every per-key history checked by TLC for a linearization (LinTrace.tla witness search against the register/counter specification)",
  text="design level: every interleaving of 2 clients x 2 calls over 2 keys / 2 shards with pool capacity 1 satisfies ReplyMatchesRequest, NoSharedSlot, SlotDiscipline, and every uncancelled call returns; the guard-release switch reproduces the stale-reply counterexample. Implementation level: 2.5k/20k TLC schedules (3 clients x 3 calls, all five entry paths, one cancellation) polled in order on the real state with 1-2 slot pools, and 4k/60k free-running histories (3-8 client tasks, 4 worker threads, register + counter keys, cross-shard batches, scripts, cancellation); each per-key history must have a linearization; plus bursts of 1.5k-5k (20k) calls queued at once with every key written once and read back, and the TTL manager's sweep polled against one client write in every order on every entry path",
  note="explored schedules only; multi-key commands judged per key; single node"),
 "C14": dict(
  technique="TLA+ spec (ImageLayout.tla: byte regions, roles and reader checks of segment / checkpoint / WAL entry images) model-checked with TLC (protection obligations, verdict totality); the CRDT value universe exported from Crdt.tla by TLC is rebuilt as real values and pushed through the four real codecs; real images under every cut and bit flip are read by the real readers and each answer is judged by TLC from the layout arithmetic (ImageTrace.tla)",
  text="round trip: every replica value of every TLC-exported Crdt.tla configuration (six kinds, tombstones, expiry, vector clocks) plus payload classes (empty, 0x00, 0xff, all 256 bytes, invalid UTF-8, 64 KiB+, odd and 5000-byte keys, u64 limits, 0/1/300 hash fields with deleted fields) and random scenarios, through WalEntry, SegmentWriter/Reader, CheckpointWriter/Reader and GossipMessage JSON, compared structurally on all fields; damage: images of 1-3 updates x every cut length x every single-bit flip x 2-4 byte bursts and zero fills (13k quick / 40k thorough cases) - the reader must answer error wherever the specification's regions are protected, may answer same only on padding/unused bytes, never different, never panic",
  note="ideal-CRC assumption for <=32-bit bursts; String keys by type; WAL entry stamp judged under C10; compression off"),
 "C15": dict(
  technique="TLA+ spec (Resp.tla: Decode/Encode over byte sequences) model-checked with TLC over every string up to a bound (Total, Stable, RoundTrip); both real decoders, the incremental codec under every fragmentation and the three encoders run on enumerated/targeted/random inputs and every outcome is judged by TLC (RespTrace.tla)",
  text="every byte string of length <= 4 (thorough 5) over the 11-symbol grammar alphabet, targeted length/limit/nesting families (in a separate process so that a stack overflow or runaway allocation is observed as a verdict), every 3-way fragmentation of five valid streams, thousands of value trees through all three encoders, and 0.3-3 million random strings (panic and allocation bound on all, TLC verdict on a sample)",
  note="allocation bound 64*len+4096 via a counting global allocator; RespParser's text conversion compared for ASCII only"),
 "C16": dict(
  technique="TLA+ spec (EntryPaths.tla: arity table, RESP<->Lua conversion Conv, script semantics) with Conv facts model-checked by TLC; every frame of a grammar-directed space run through five real entry paths (both parsers on the value, both decoder+parser pipelines on the wire image, upper-cased name) and every 1..3-command program run directly / via redis.call / via redis.pcall on twin executors, judged by TLC (EntryTrace.tla); keyspace traces with every command issued by a script validated against RedisKeyspace.tla modulo Conv (KsTrace.tla)",
  text="frames: every command name in three letter cases x arities 0..6 x filler classes, every option-keyword word up to length 3 (thorough 4) for 29 command families, non-bulk elements, i64 limits in each numeric position, generator frames (26k quick / 120k thorough) - all outcomes (Debug rendering or error text) must agree on all paths and respect the arity table; scripts: 3k/30k programs after random prefixes - keyspace equal, reply = Conv(direct reply), a script stopped by an error keeps the effects up to it; plus every TLC-exported keyspace scenario and 300/2000 random 40-step runs with each command issued through redis.call/pcall judged by the Redis model",
  note="RESP<->Lua conversion as pinned by the repository's tests (null -> nil); GETSET model conformance tolerated here (C01 finding); Lua 5.4 table.unpack"),
 "C18": dict(
  technique="TLA+ spec (AntiEntropy.tla) model-checked with TLC incl. liveness (EventuallyInSync under weak fairness); TLC-exported state pairs rebuilt as real replica states on keys colliding in real digest buckets; real StateDigest, AntiEntropyManager digest exchanges and run_anti_entropy_sync rounds judged by TLC (AeTrace.tla: DigestVerdict, MgrVerdict, SyncVerdict with the one-exchange rule)",
  text="design level: digests as injective functions of bucket content, sync rounds under a key limit with a rotating sender are live for Limit 1 and 2, the fixed-prefix sender is not; implementation level: for every exported pair and thousands of random histories (independent maps, shuffled merge orders, hashes with equal outer stamps, tombstones) differs_from / divergent_buckets must equal the truth TLC computes from the observable projection, and every real sync round must move keys only to the merge and end merged within the bound",
  note="hash collisions not modelled; 2 replicas; limits 1-3; kinds fixed per key"),
 "C19": dict(
  technique="TLA+ spec (Placement.tla) model-checked with TLC over every ring position assignment; TLC-enumerated memberships/join orders replayed on the real HashRing (observed through a hook) and GossipRouter/GossipState; results judged by TLC (PlaceTrace.tla) against Replicas/Targets recomputed from the observed ring",
  text="design level: size/distinctness, prefix-in-rf, minimal disruption and router coverage for all rings of 3 nodes x 2 vnodes, with the as-built from_config counterexample; implementation level: for every join order (with leave/rejoin) of clusters up to 4-5 nodes and random memberships up to 6, replica lists for every rf, the ring with one more node, and the routing tables of every sender (new, from_config, queue_deltas) must equal what the specification derives from the observed ring; membership changing at run time (PlacementDyn.tla: join / learn / leave / forget as separate steps; dyn family through add_node/remove_node + update_peer/remove_peer with is_responsible, judged per epoch and between epochs)",
  note="positions as ranks; vnode counts {1,2,3,150}; 12 keys per case"),
 "C20": dict(
  category="other",
  technique="TLA+ spec (Repro.tla: a harness as a seeded transition system run twice in one process and once in another, with ambient-read and leftover-state switches) model-checked with TLC; every built-in harness preset run for the same seeds twice in one process and once in a second process with reversed harness order, the recorded step/final/verdict traces compared pairwise by TLC (ReproTrace.tla)",
  text="trace relation, not a state invariant: for 39 harness presets (executor, list, set, hash, sorted set, transaction, GCounter/PNCounter/ORSet/VectorClock, streaming, WAL, compaction, DSTSimulation, RedisDSTSimulation, partition tests, pipeline simulator) x 4 (thorough 10) seeds, the per-step operation log, the final state dump, the result structure and the verdict of run A1 must equal those of A2 (same process, later) and of B (other process, reversed order), record by record; the first diverging record is reported with both renderings",
  note="level 'other': TLC compares recorded traces and checks the small determinism model; no exhaustive exploration of harness behaviour. Wall-clock reads that do not change a logged value are invisible"),
 "C07": dict(
  technique="TLA+ spec (Crdt.tla) model-checked with TLC; TLC-exported operation sequences replayed on the real ShardReplicaState/ReplicatedValue; recorded traces validated by TLC (CrdtTrace.tla)",
  text="TLC checks the three laws, in the observable projection, on every configuration of 3 replicas of one key reachable within the step bound; one operation sequence per distinct configuration is replayed on the real code and TLC validates every step (refinement of Merge) and the laws on the results of the real merge for all pairs and triples; random longer runs over all six CRDT kinds are validated the same way",
  note="bounded: 3 replicas, 1 key, <=3 (quick) / <=4 (thorough) operations for the exhaustive part; Obs() is the stated observable projection; type-mismatch triples are judged by the laws only"),
 "C09": dict(
  technique="TLA+ spec (Wal.tla) of rotator + group-commit actor model-checked with TLC (crash = invariant in every state, all fault outcomes); TLC-enumerated scenario space replayed on the real spawn_wal_actor over a scripted WalStore; I/O-level traces validated by TLC (WalTrace.tla); WalPolicy.tla (the actor under every fsync policy with SyncTick / TruncateUpTo / Shutdown in the mailbox) model-checked and trace-validated (WalPolicyTrace.tla) - its always-mode obligations count here",
  text="design level: every interleaving of <=4-5 writers, rotation points, batch limits and <=2-3 faults satisfies AckedIsDurable in every state, and both as-built switches reproduce their counterexamples; implementation level: every scenario of the exported space (burst splits x capacity x batch x fault placement) is run on the real actor, the real recovery is run on the crash image after every I/O call, and TLC accepts an ack only where the entry lies in a synced prefix",
  note="fault model: crash keeps exactly the fsynced prefix of each file; torn append = prefix + error; scripted store implements the public WalStore trait; paused tokio time; an entry removed by a requested TruncateUpTo (stamp <= threshold) is outside C09; the everysec / no policies ride along as an extension that never changes the verdict"),
 "C10": dict(
  technique="TLA+ spec (WalFormat.tla): region-level reader model-checked with TLC over every damage placement; damaged real images read by the real recovery and judged case by case by TLC (WalFormatTrace.tla); the truncation rule also through the real WAL actor (WalPolicy.tla / WalPolicyTrace.tla) and while one file cannot be read",
  text="every cut length and every byte position (bit flips, bursts, zero windows, zero extensions) of small real images, and every stamp layout/threshold for truncation, with the expected outcome computed by TLC from the layout arithmetic of the specification",
  note="ideal-checksum assumption (single-bit and <=32-bit bursts); layouts of 1-3 files x 1-4 entries; entry identity = data+stamp+checksum"),
}

def main():
    checks = []
    for pid in sorted(CHECKS):
        c = CHECKS[pid]
        checks.append({
            "property_id": pid,
            "quick_cmd": f"bin/check {pid} --tier quick",
            "thorough_cmd": f"bin/check {pid} --tier thorough",
            "evidence_file": f"/verif/evidence/{pid}.json",
            "engine": "tlc+vh",
            "technique": c["technique"],
            "level_claimed": {"category": c.get("category", "model_checking"), "text": c["text"],
                              "design_ref": f"DESIGN.md section 5 {pid}"},
            "level_note": c["note"],
        })
    hooks = json.load(open(os.path.join(V, "hooks.json")))
    m = {
        "version": 1,
        "setup_cmd": "cd /verif/harness && RUSTC_WRAPPER= CARGO_NET_OFFLINE=true cargo build --profile verif --offline && cd /verif/harness_acl && RUSTC_WRAPPER= CARGO_NET_OFFLINE=true cargo build --profile verif --offline",
        "hooks": hooks,
        "engines": [
            {"name": "tlc", "path": "/verif/spec", "kind_free_text": "TLA+ specifications model-checked with TLC; trace specifications validate ndjson traces recorded from the real code", "serves_properties": sorted(CHECKS)},
            {"name": "vh", "path": "/verif/harness", "kind_free_text": "Rust harness (path dependency on /repo, feature verif-hooks): replays TLC-generated scenarios on the real types and records traces", "serves_properties": sorted(CHECKS)},
        ],
        "checks": checks,
        "not_applicable": [{"property_id": p, "reason": NA.get(p, "check not built yet (work in progress, see DESIGN.md growth plan)")}
                           for p in sorted(TITLES) if p not in CHECKS],
        "notes": "See DESIGN.md. bin/check exits 0 (held, possibly with KNOWN-FINDING lines), 1 (VIOLATION lines), 2 (tool error: no verdict).",
    }
    json.dump(m, open(os.path.join(V, "MANIFEST.json"), "w"), indent=1)

NA = {}
if __name__ == "__main__":
    main()
