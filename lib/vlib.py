"""Shared driver library for /verif/bin/check.

Conventions
  exit 0  property held on everything explored (KNOWN-FINDING lines allowed)
  exit 1  VIOLATION property=<id> replay=<path>
  exit 2  tool / spec / build error: no verdict
"""
import json, os, re, subprocess, sys, time, shutil, hashlib

VERIF = os.path.dirname(os.path.dirname(os.path.abspath(__file__)))
# (development only: a scratch copy of the specs / harness can be tried without touching the committed ones)
SPEC = os.environ.get("VERIF_SPEC_DIR", os.path.join(VERIF, "spec"))
HARNESS = os.environ.get("VERIF_HARNESS_DIR", os.path.join(VERIF, "harness"))
EVID = os.path.join(VERIF, "evidence")
WORK = os.path.join(VERIF, "work")          # scratch (git-ignored), never /tmp
VH = os.path.join(HARNESS, "target", "verif", "vh")
# (development only: bin/coverage runs the checks with a coverage-instrumented build of the harness)
VH_OVERRIDE = os.environ.get("VERIF_VH_BIN")
TLA_JAR = "/opt/veriftools/tla/tla2tools.jar"
CM_JAR = None


class ToolError(Exception):
    pass


def log(*a):
    print(*a, file=sys.stderr, flush=True)


def seed():
    try:
        return int(os.environ.get("VERIF_SEED", "1"))
    except ValueError:
        return 1


def workdir(pid, clean=True):
    d = os.path.join(WORK, pid)
    if clean and os.path.isdir(d):
        shutil.rmtree(d, ignore_errors=True)
    os.makedirs(d, exist_ok=True)
    return d


def run(cmd, cwd=None, env=None, timeout=None, capture=True):
    e = dict(os.environ)
    if env:
        e.update(env)
    t0 = time.time()
    p = subprocess.run(cmd, cwd=cwd, env=e, timeout=timeout,
                       stdout=subprocess.PIPE if capture else None,
                       stderr=subprocess.STDOUT if capture else None, text=True, errors="replace")
    return p.returncode, (p.stdout or ""), time.time() - t0


_built = False


def build_harness():
    """Rebuild the harness against /repo's current working tree (hooks on)."""
    global _built, VH
    if VH_OVERRIDE:
        VH = VH_OVERRIDE
        _built = True
    if _built:
        return VH
    env = {"CARGO_NET_OFFLINE": "true", "RUSTC_WRAPPER": "", "CARGO_TERM_COLOR": "never"}
    lock = os.path.join(VERIF, "work", ".cargo.lock")
    os.makedirs(os.path.dirname(lock), exist_ok=True)
    import fcntl
    with open(lock, "w") as lf:
        fcntl.flock(lf, fcntl.LOCK_EX)
        rc, out, dt = run(["cargo", "build", "--profile", "verif", "--offline", "-q"], cwd=HARNESS, env=env,
                          timeout=3600)
    if rc != 0:
        log(out[-4000:])
        raise ToolError("harness build failed (does /repo still compile with --features verif-hooks?)")
    _built = True
    log(f"[build] harness up to date ({dt:.1f}s)")
    return VH


def vh(args, timeout=1500, env=None):
    build_harness()
    rc, out, dt = run([VH] + [str(a) for a in args], cwd=VERIF, timeout=timeout, env=env)
    if rc != 0:
        log(out[-3000:])
        raise ToolError(f"vh {' '.join(map(str, args[:3]))} exited {rc}")
    return out, dt


# ----------------------------------------------------------------------------
# TLC
# ----------------------------------------------------------------------------
class TlcResult:
    def __init__(self):
        self.rc = None
        self.out = ""
        self.generated = 0
        self.distinct = 0
        self.depth = 0
        self.wall = 0.0
        self.violated = None      # name of violated invariant/property, if any
        self.error = None         # other error text
        self.prints = []          # PrintT payload lines (raw)
        self.coverage = {}        # action -> (distinct, total)

    @property
    def ok(self):
        return self.rc == 0 and self.violated is None and self.error is None


def tlc(module, cfg, wd, workers=4, env=None, timeout=1800, simulate=None, depth=None, extra=None,
        coverage=False, heap="6g", deque=False, xss=False):
    """Run TLC on spec/<module>.tla with spec/<cfg>.cfg; parse the statistics."""
    meta = os.path.join(wd, "tlc-" + cfg + "-" + str(os.getpid()))
    jopts = [f"-Xmx{heap}", "-XX:+UseParallelGC"]
    if xss:
        jopts.append("-Xss1g")
    if deque:
        jopts.append("-Dtlc2.tool.queue.IStateQueue=StateDeque")
    cmd = ["java"] + jopts + ["-cp", TLA_JAR + ":" + cm_jar(), "tlc2.TLC",
           "-workers", str(workers), "-metadir", meta, "-cleanup", "-noGenerateSpecTE",
           "-config", os.path.join(SPEC, cfg + ".cfg")]
    if simulate:
        cmd += ["-simulate", simulate]
    if depth:
        cmd += ["-depth", str(depth)]
    if coverage:
        cmd += ["-coverage", "1"]
    if extra:
        cmd += extra
    cmd.append(os.path.join(SPEC, module + ".tla"))
    r = TlcResult()
    try:
        r.rc, r.out, r.wall = run(cmd, cwd=SPEC, env=env, timeout=timeout)
    except subprocess.TimeoutExpired:
        shutil.rmtree(meta, ignore_errors=True)
        raise ToolError(f"TLC timeout on {module}/{cfg}")
    shutil.rmtree(meta, ignore_errors=True)
    for line in r.out.splitlines():
        m = re.match(r"(\d+) states generated (\d+) distinct states found", line.replace(",", ""))
        if m:
            r.generated, r.distinct = int(m.group(1)), int(m.group(2))
        m = re.match(r"The depth of the complete state graph search is (\d+)", line)
        if m:
            r.depth = int(m.group(1))
        m = re.match(r"Error: Invariant (\S+) is violated", line)
        if m:
            r.violated = m.group(1)
        m = re.match(r"Error: Temporal property (\S+) was violated", line)
        if m and r.violated is None:
            r.violated = m.group(1)
        m = re.match(r"Error: (Action property|Temporal properties) (.*)", line)
        if m and r.violated is None:
            r.violated = m.group(2).strip() or "property"
        if line.startswith("Error:") and r.violated is None and r.error is None \
                and "The behavior up to this point" not in line:
            r.error = line
        if line.startswith("<<\"") or line.startswith("\"@"):
            r.prints.append(line)
        m = re.match(r"<(\w+) line \d+, col \d+ to line \d+, col \d+ of module (\w+)>: (\d+):(\d+)", line)
        if m:
            a = m.group(1)
            d, t = int(m.group(3)), int(m.group(4))
            old = r.coverage.get(a, (0, 0))
            r.coverage[a] = (old[0] + d, old[1] + t)
    return r


def cm_jar():
    global CM_JAR
    if CM_JAR is None:
        cands = []
        for root in ("/opt/veriftools/tla", "/opt/veriftools"):
            for dp, dn, fn in os.walk(root):
                for f in fn:
                    if f.lower().startswith("communitymodules") and f.endswith(".jar"):
                        cands.append(os.path.join(dp, f))
            if cands:
                break
        CM_JAR = sorted(cands, key=lambda p: ("deps" not in p, p))[0] if cands else ""
    return CM_JAR


def tla_unescape(s):
    """Undo TLC's printing of a string value (inside <<...>>)."""
    return s.replace('\\"', '"').replace("\\\\", "\\")


def printed_json(res, tag):
    """PrintT(<<tag, ToJson(v)>>) lines -> list of python values."""
    out = []
    pre = '<<"' + tag + '", "'
    for line in res.prints:
        if line.startswith(pre) and line.endswith('">>'):
            body = line[len(pre):-3]
            try:
                out.append(json.loads(tla_unescape(body)))
            except Exception as e:
                raise ToolError(f"cannot parse TLC print: {line[:200]} ({e})")
    return out


def must_pass(res, what):
    if not res.ok:
        log(res.out[-3000:])
        raise ToolError(f"design spec check failed: {what}: violated={res.violated} error={res.error}")
    return res


def must_violate(res, inv, what):
    """An as-built switch must reproduce its finding at design level (non-vacuity of the switch)."""
    if res.violated != inv:
        log(res.out[-3000:])
        raise ToolError(f"{what}: expected violation of {inv}, got violated={res.violated} error={res.error}")
    return res


# ----------------------------------------------------------------------------
# Trace / case validation by TLC: the trace spec prints verdict lines
#   <<"VERDICT", "<json>">>  with json = {"run": id, "l": index, "v": "bad"|"<deviation>", ...}
# and a final <<"VALIDATED", n_events, n_runs>> line.
# ----------------------------------------------------------------------------
def validate(module, cfg, trace, wd, env=None, timeout=3600, heap="8g"):
    e = {"TRACE": trace}
    if env:
        e.update(env)
    r = tlc(module, cfg, wd, workers=1, env=e, timeout=timeout, heap=heap, xss=True)
    if r.rc != 0 or r.error or r.violated:
        log(r.out[-4000:])
        raise ToolError(f"trace validation {module}/{cfg} did not complete: violated={r.violated} error={r.error}")
    verdicts = printed_json(r, "VERDICT")
    done = [l for l in r.prints if l.startswith('<<"VALIDATED"')]
    if not done:
        log(r.out[-4000:])
        raise ToolError(f"trace validation {module}/{cfg}: no VALIDATED line")
    m = re.findall(r"\d+", done[-1])
    return verdicts, [int(x) for x in m], r


# ----------------------------------------------------------------------------
# Known findings
# ----------------------------------------------------------------------------
def known_findings(pid):
    p = os.path.join(VERIF, "known_findings.json")
    if not os.path.exists(p):
        return {}
    kf = json.load(open(p))
    return {f["id"]: f for f in kf.get("findings", []) if f["property"] == pid and f.get("status") == "open"}


# ----------------------------------------------------------------------------
# Reporting
# ----------------------------------------------------------------------------
CURRENT_REPORT = None


class Report:
    def __init__(self, pid, tier, level="model_checking"):
        self.pid, self.tier, self.level = pid, tier, level
        self.t0 = time.time()
        self.cov = {"states": 0, "transitions": 0, "traces_validated_against_impl": 0, "samples": [],
                    "evaluations": 0, "distinct_nontrivial": 0, "rule": ""}
        self.assumptions = []
        self.violations = []      # (what, replay_obj)
        self.known = {}           # finding id -> count
        self.known_open = known_findings(pid)
        self.notes = {}
        global CURRENT_REPORT
        CURRENT_REPORT = self     # (bin/check: a violation found before a later tool error is still reported)

    def add_mc(self, res, name):
        self.cov["states"] += res.distinct
        self.cov["transitions"] += res.generated
        self.notes.setdefault("tlc_runs", []).append(
            {"config": name, "distinct_states": res.distinct, "states_generated": res.generated,
             "depth": res.depth, "wall_s": round(res.wall, 1),
             "violated": res.violated})

    def sample(self, obj, limit=4):
        if len(self.cov["samples"]) < limit:
            self.cov["samples"].append(obj)

    def classify(self, finding_id, what, replay_obj, detail=""):
        """finding_id None/'bad' => violation; a listed open finding id => known finding."""
        if finding_id and finding_id != "bad" and finding_id in self.known_open:
            self.known[finding_id] = self.known.get(finding_id, 0) + 1
        else:
            if finding_id and finding_id != "bad":
                what = f"{what} [deviation {finding_id} is not a listed open finding]"
            self.violations.append((what, {"detail": detail, "case": replay_obj}))

    def finish(self):
        os.makedirs(EVID, exist_ok=True)
        rdir = os.path.join(EVID, "replays", self.pid)
        if os.path.isdir(rdir):
            shutil.rmtree(rdir, ignore_errors=True)
        for fid, n in sorted(self.known.items()):
            f = self.known_open[fid]
            print(f"KNOWN-FINDING: property={self.pid} {fid}: {f['what']} (seen {n}x this run)")
        seen_what = set()
        paths = []
        for i, (what, obj) in enumerate(self.violations[:40]):
            os.makedirs(rdir, exist_ok=True)
            path = os.path.join(rdir, f"violation_{i}.json")
            json.dump({"property": self.pid, "what": what, "case": obj}, open(path, "w"), indent=1)
            paths.append(path)
            if what not in seen_what:
                seen_what.add(what)
                print(f"VIOLATION property={self.pid} replay={path}")
                log(f"  -> {what}")
        self.cov["known_findings_seen"] = self.known
        self.cov.update(self.notes)
        ev = {"property_id": self.pid, "tier": self.tier, "seed": seed(), "level": self.level,
              "coverage": self.cov, "assumptions": self.assumptions,
              "wall_s": round(time.time() - self.t0, 1), "violations": len(self.violations)}
        json.dump(ev, open(os.path.join(EVID, self.pid + ".json"), "w"), indent=1)
        return 1 if self.violations else 0


# ----------------------------------------------------------------------------
# Helpers shared by the per-property checks
# ----------------------------------------------------------------------------
def write_ndjson(path, items):
    with open(path, "w") as f:
        for s in items:
            f.write(json.dumps(s) + "\n")
    return path


def export_scenarios(module, cfg, wd, workers=4, timeout=3000, tag="SCN"):
    ex = tlc(module, cfg, wd, workers=workers, timeout=timeout)
    if ex.error or ex.violated or ex.rc != 0:
        log(ex.out[-3000:])
        raise ToolError(f"scenario export {module}/{cfg} failed")
    return printed_json(ex, tag), ex


def load_runs(trace):
    """ndjson trace -> {run id: [events]} (events carry 'run')."""
    runs = {}
    cur = None
    for line in open(trace):
        ev = json.loads(line)
        cur = ev.get("run", cur)
        runs.setdefault(cur, []).append(ev)
    return runs


def validate_runs(rep, module, cfg, trace, wd, label, dev_cfgs=None, describe=None, strip=("obs", "laws")):
    """Validate a multi-run trace; classify failing runs (strict first, then per listed deviation).
    dev_cfgs: {finding id: cfg name}.  Returns (runs, failing run ids)."""
    verdicts, done, res = validate(module, cfg, trace, wd)
    runs = load_runs(trace)
    rep.cov["traces_validated_against_impl"] += len(runs)
    rep.cov["evaluations"] += done[0]
    bad_runs = sorted({v["run"] for v in verdicts})
    rep.notes.setdefault("validated", []).append(
        {"source": label, "runs": len(runs), "events": done[0], "rejected_strict": len(bad_runs)})
    if not bad_runs:
        return runs, []
    explained = {}
    if dev_cfgs:
        sub = os.path.join(wd, label + "_failing.ndjson")
        with open(sub, "w") as f:
            for r in bad_runs:
                for ev in runs[r]:
                    f.write(json.dumps(ev) + "\n")
        for dev, dcfg in dev_cfgs.items():
            if dev not in rep.known_open:
                continue
            v2, _, _ = validate(module, dcfg, sub, wd)
            still = {v["run"] for v in v2}
            for r in bad_runs:
                if r not in still and r not in explained:
                    explained[r] = dev
    # every verdict of a run counts: a step explained by a listed deviation must not hide an unexplained one later in the same
    # run (trace specs that judge step by step and adopt the observed state report each rejected step on its own)
    by_run = {}
    for v in verdicts:
        by_run.setdefault(v["run"], []).append(v)
    for r in bad_runs:
        evs = [{k: e[k] for k in e if k not in strip} for e in runs[r]]
        vs = by_run[r]
        if r in explained:
            picks = [(explained[r], vs[0])]
        else:
            picks, seen = [], set()
            unexplained = [v for v in vs if v.get("v") in (None, "bad")]
            if unexplained:
                picks.append((None, unexplained[0]))
            for v in vs:
                fid = v.get("v")
                if fid not in (None, "bad") and fid not in seen:
                    seen.add(fid)
                    picks.append((fid, v))
        for fid, v in picks:
            what = v.get("what", "rejected")
            case = {"source": label, "failed_check": what, "at_event": v.get("l"), "events": evs[:400]}
            rep.classify(fid, (describe or "trace rejected: {what}").format(what=what), case, f"{label} run {r}")
    return runs, bad_runs
