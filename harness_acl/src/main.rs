//! Acl.tla binding (extension, not a listed property): random ACL rule sequences applied to a real AclUser through
//! `apply_rule` (even runs) or the real ACL SETUSER handler one rule at a time (odd runs); after every rule the real
//! AclManager decides: authenticate (p1, p2, empty password), check_command for four commands without a key and with
//! three probe keys.   vh_acl record --seed S --n N --out cases.ndjson
use rand::{Rng, SeedableRng};
use redis_sim::security::acl::{apply_rule, AclCommandHandler};
use redis_sim::security::{AclError, AclManager, AclUser};
use serde_json::{json, Value};
use std::io::Write;

const CMDS: [&str; 4] = ["GET", "SET", "SADD", "FLUSHALL"];
const KEYS: [&str; 3] = ["user:1", "k", "other"];
const PWS: [&str; 3] = ["p1", "p2", ""];

/// (abstract rule, the rule text handed to the code)
fn rules() -> Vec<(Value, String)> {
    let mut v: Vec<(Value, String)> = vec![
        (json!(["on"]), "on".into()), (json!(["off"]), "off".into()), (json!(["nopass"]), "nopass".into()),
        (json!(["resetpass"]), "resetpass".into()), (json!(["reset"]), "reset".into()),
        (json!(["allcommands"]), "allcommands".into()), (json!(["allcommands"]), "+@all".into()),
        (json!(["nocommands"]), "nocommands".into()), (json!(["nocommands"]), "-@all".into()),
        (json!(["allkeys"]), "allkeys".into()), (json!(["allkeys"]), "~*".into()), (json!(["resetkeys"]), "resetkeys".into()),
    ];
    for p in ["p1", "p2"] {
        v.push((json!(["addpw", p]), format!(">{p}")));
        v.push((json!(["delpw", p]), format!("<{p}")));
    }
    for c in CMDS {
        v.push((json!(["+", c]), format!("+{}", c.to_lowercase())));
        v.push((json!(["-", c]), format!("-{}", c.to_lowercase())));
        v.push((json!(["+", c]), format!("+{c}")));
    }
    for k in ["read", "write", "set", "dangerous"] {
        v.push((json!(["+@", k]), format!("+@{k}")));
        v.push((json!(["-@", k]), format!("-@{k}")));
    }
    for p in ["user:*", "k"] {
        v.push((json!(["~", p]), format!("~{p}")));
    }
    v
}

fn verdict(r: Result<(), AclError>) -> &'static str {
    match r {
        Ok(()) => "ok",
        Err(AclError::UserDisabled) => "disabled",
        Err(AclError::CommandNotPermitted { .. }) => "nocmd",
        Err(AclError::KeyNotPermitted { .. }) => "nokey",
        Err(_) => "other",
    }
}

fn observe(m: &AclManager, name: &str) -> Value {
    let u = m.get_user(name).expect("user registered");
    let auth: Vec<bool> = PWS.iter().map(|p| m.authenticate(name, p).is_ok()).collect();
    let nokeys: Vec<&str> = CMDS.iter().map(|c| verdict(m.check_command(Some(&u), c, &[]))).collect();
    let withkey: Vec<Vec<&str>> = CMDS.iter().map(|c| KEYS.iter().map(|k| verdict(m.check_command(Some(&u), c, &[k]))).collect()).collect();
    json!({"auth": auth, "nokeys": nokeys, "withkey": withkey})
}

fn main() {
    let args: Vec<String> = std::env::args().collect();
    let get = |k: &str, d: &str| args.iter().position(|a| a == k).and_then(|i| args.get(i + 1)).cloned().unwrap_or(d.to_string());
    let seed: u64 = get("--seed", "1").parse().unwrap();
    let n: usize = get("--n", "200").parse().unwrap();
    let mut out = std::io::BufWriter::new(std::fs::File::create(get("--out", "acl_cases.ndjson")).unwrap());
    let mut rng = rand_chacha::ChaCha8Rng::seed_from_u64(seed);
    let universe = rules();
    std::panic::set_hook(Box::new(|_| {}));
    for run in 1..=n {
        let len = rng.gen_range(1..=7);
        let seq: Vec<(Value, String)> = (0..len).map(|_| universe[rng.gen_range(0..universe.len())].clone()).collect();
        let via_setuser = run % 2 == 1;
        let res = std::panic::catch_unwind(std::panic::AssertUnwindSafe(|| {
            let mut m = AclManager::new();
            let name = "alice";
            let mut user = AclUser::new(name.to_string());
            m.set_user(user.clone());
            let mut steps = Vec::new();
            for (_, text) in &seq {
                if via_setuser {
                    AclCommandHandler::handle_setuser(&mut m, name, &[text.as_str()]).expect("rule accepted");
                } else {
                    apply_rule(&mut user, text).expect("rule accepted");
                    m.set_user(user.clone());
                }
                steps.push(observe(&m, name));
            }
            steps
        }));
        let rec = match res {
            Ok(steps) => json!({"t": "acl", "run": run, "via": if via_setuser { "setuser" } else { "apply_rule" },
                                "rules": seq.iter().map(|(a, _)| a.clone()).collect::<Vec<_>>(), "text": seq.iter().map(|(_, t)| t.clone()).collect::<Vec<_>>(), "steps": steps}),
            Err(_) => json!({"t": "acl", "run": run, "rules": [], "steps": [], "panic": "panic in the ACL code"}),
        };
        writeln!(out, "{}", rec).unwrap();
    }
    println!("{{\"cases\": {n}}}");
}
